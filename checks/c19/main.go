// C19: a generic instantiation enforces its own type arguments, whatever came before.
//
// Form H (history search): every operation sequence up to length k over
//
//	new Box<T> | new Pair<K,V>            T,K,V in {int, string, array, user class U}
//	new G<A>(new G2<B>()) | G<A>(G2<B>()) | new G<A>()->take(new G2<B>())   nested instantiations (create 2 instances)
//	new Box() | new AnyBox() (same for Pair)  no type arguments / plain subclass of the generic: run, not judged
//	#i.member = value   (property store)  value kind in {int, string, array, U [, W]}
//	#i.set_member(value) (method whose body stores into the typed property)
//	who executes the store (model.go routeOrder): top level | the target's own method | a plain function | a method of
//	   an unrelated class | a static method of the generic class | a method of ANOTHER live instance #a (any
//	   instantiation, also raw / subclass objects; directly, through the target's own setter, or in a closure)
//	visibility of the typed member (visOrder): public | protected | private class variants (non-public members are
//	   written only by code of the generic class itself and read back through a getter)
//	syntax of the store (formOrder): $o->m = x | $o->{"m"} = x | $r = ($o->m = x) | foreach ([x] as $o->m) {}
//
// on any live instance is printed as one script, run on a fresh parser + VM, and every step's
// accepted/rejected marker and the stored value are compared with a reference model that computes
// acceptance *per instance from its own type arguments only* (model.go). Failing histories are
// delta-reduced and canonicalised (drop ops, Pair->Box, method->property route, simpler kinds,
// kind renaming, earlier `new`s) so that one root cause collapses to one minimal witness = key.
//
// Sequential histories only. The concurrent clause of the property ("… or concurrently") is NOT
// decided here; see the EXTENSION POINT at the bottom of this file.
package main

import (
	"encoding/json"
	"fmt"
	"os"
	"sort"
	"strings"
	"time"

	"verif/engine/ev"
	"verif/engine/pool"
	"verif/engine/runner"
)

var cc concr // concretisation, set from the seed in parent and workers

// ---- running and judging one history -------------------------------------------------------

type verdict struct {
	Clause string // "" | "acceptance" | "value" | "instantiate" | "crash"
	Step   int    // index of the first deviating op
	Sub    string // extra key component for crashes
	Exp    []string
	Got    []string
	Kind   string
}

func judge(seq []Op) verdict {
	exp, ok := cc.expect(seq)
	if !ok {
		return verdict{Clause: "ill-formed"}
	}
	res := runner.Run(cc.script(seq), runner.Opts{})
	got := strings.Split(strings.TrimRight(res.Out, "\n"), "\n")
	if res.Out == "" {
		got = nil
	}
	v := verdict{Exp: exp, Got: got, Kind: res.Kind}
	for i := range exp {
		if i >= len(got) {
			v.Clause, v.Step = "crash", i
			v.Sub = res.Kind
			if res.PanicKey != "" {
				v.Sub = res.PanicKey
			} else if res.Class != "" {
				v.Sub = res.Kind + ":" + res.Class
			}
			return v
		}
		if exp[i] == got[i] || (exp[i] == "*" && got[i] != "") {
			continue // "*": write on an object created without type arguments — run, not judged
		}
		if alts := strings.Split(exp[i], "|"); len(alts) > 1 && (alts[0] == got[i] || alts[1] == got[i]) {
			continue // an under-/over-applied instantiation: refused, or an object that enforces the given argument
		}
		v.Step = i
		switch {
		case got[i] == "X" || exp[i] == "N" || got[i] == "N":
			v.Clause = "instantiate"
		case got[i] != "" && exp[i][0] != got[i][0]:
			v.Clause = "acceptance"
		default:
			v.Clause = "value"
		}
		return v
	}
	if res.Kind != "ok" || len(got) != len(exp) {
		v.Clause, v.Step, v.Sub = "crash", len(exp), res.Kind+res.PanicKey
	}
	return v
}

// ---- reduction / canonicalisation -------------------------------------------------------------

func cloneSeq(s []Op) []Op {
	r := make([]Op, len(s))
	for i, o := range s {
		r[i] = o
		r[i].Args = append([]string(nil), o.Args...)
		r[i].Args2 = append([]string(nil), o.Args2...)
	}
	return r
}

// measure orders sequences: shorter, fewer Pair instances, fewer method routes, simpler kinds in
// order of appearance, `new`s earlier, writes ordered by instance.
func measure(s []Op) []int {
	nAtt, nSite := 0, 0
	if siteMode(s) {
		nSite = 1
	}
	nPair, nMeth, nSub, nNest, nForm := 0, 0, 0, 0, 0 // nMeth: sum of the route ranks (prop 0, meth 1, … clos 7)
	var nRanks, wRanks, newPos, wInst, agents []int
	for i, o := range s {
		if o.New {
			if o.G == "Pair" {
				nPair++
			}
			if o.Raw == "sub" {
				nSub++
			}
			switch o.Form {
			case "ctor":
				nNest += 10
			case "short":
				nNest += 11
			case "chain":
				nNest += 12
			}
			if o.G2 == "Pair" {
				nPair++
			}
			for _, a := range o.Args2 {
				nRanks = append(nRanks, kindRank(a))
			}
			for _, a := range o.Args {
				nRanks = append(nRanks, kindRank(a))
			}
			newPos = append(newPos, i)
		} else if o.Att != "" {
			nAtt += 1 + map[string]int{"under": 0, "over": 1, "boom": 2}[o.Att]
			for _, a := range o.Args {
				nRanks = append(nRanks, kindRank(a))
			}
		} else {
			nMeth += routeRank(o.Route)
			nForm += formRank(o.Store)
			if agentRoute(o.Route) {
				agents = append(agents, o.Agent)
			}
			wRanks = append(wRanks, kindRank(o.Val))
			wInst = append(wInst, o.Inst)
			if o.Member == "k" {
				wInst = append(wInst, 0)
			} else {
				wInst = append(wInst, 1)
			}
		}
	}
	m := []int{nNest, len(s), visRank(visOf(s)), nSite, nAtt, nPair, nMeth, nForm, nSub, len(nRanks)}
	m = append(m, nRanks...) // type arguments in creation order
	m = append(m, wRanks...) // written kinds in write order
	m = append(m, newPos...)
	m = append(m, wInst...)
	m = append(m, agents...)
	return m
}

func less(a, b []int) bool {
	for i := 0; i < len(a) && i < len(b); i++ {
		if a[i] != b[i] {
			return a[i] < b[i]
		}
	}
	return len(a) < len(b)
}

func dropOp(s []Op, i int) []Op {
	r := []Op{}
	if !s[i].New {
		r = append(r, cloneSeq(s[:i])...)
		r = append(r, cloneSeq(s[i+1:])...)
		return r
	}
	// dropping a `new`: drop the writes on that instance, renumber the later instances
	idx := 0
	for _, o := range s[:i] {
		idx += o.creates()
	}
	w := s[i].creates()
	for j, o := range cloneSeq(s) {
		if j == i {
			continue
		}
		if !o.New && o.Att == "" {
			if o.Inst >= idx && o.Inst < idx+w {
				continue
			}
			if o.Inst >= idx+w {
				o.Inst -= w
			}
			if agentRoute(o.Route) {
				// a write performed by the dropped instance goes with it
				if o.Agent >= idx && o.Agent < idx+w {
					continue
				}
				if o.Agent >= idx+w {
					o.Agent -= w
				}
			}
		}
		r = append(r, o)
	}
	return r
}

// candidates yields every one-step simplification of s.
func candidates(s []Op) [][]Op {
	var out [][]Op
	for i := range s {
		out = append(out, dropOp(s, i))
	}
	hasNested := false
	for _, o := range s {
		if o.Form != "" {
			hasNested = true
		}
	}
	if hasNested {
		// nested instantiations: un-nest (two plain `new`s: if that still deviates the nesting is
		// irrelevant and the history collapses onto the plain keys), simpler form, simpler inner kinds
		for i, o := range s {
			if o.Form == "" {
				continue
			}
			un := []Op{}
			for j, p := range cloneSeq(s) {
				if j == i {
					un = append(un, Op{New: true, G: o.G, Args: append([]string(nil), o.Args...)}, Op{New: true, G: o.G2, Args: append([]string(nil), o.Args2...)})
				} else {
					un = append(un, p)
				}
			}
			out = append(out, un)
			if o.Form != "ctor" {
				c := cloneSeq(s)
				c[i].Form = "ctor"
				out = append(out, c)
			}
			if o.G2 == "Pair" {
				for keep := range members["Pair"] {
					c := cloneSeq(s)
					c[i].G2, c[i].Args2 = "Box", []string{o.Args2[keep]}
					// writes on the inner instance: keep the kept member only
					idx := 0
					for _, q := range s[:i] {
						idx += q.creates()
					}
					c2 := []Op{}
					for _, q := range c {
						if !q.New && q.Att == "" && q.Inst == idx+1 {
							if q.Member != members["Pair"][keep] {
								continue
							}
							q.Member = "v"
						}
						c2 = append(c2, q)
					}
					out = append(out, c2)
				}
			}
			for ai, a := range o.Args2 {
				for _, k := range allKinds[:kindRank(a)] {
					if k == "W" {
						continue
					}
					c := cloneSeq(s)
					c[i].Args2[ai] = k
					out = append(out, c)
				}
			}
		}
	}
	// Pair instance -> Box keeping one member
	inst := 0
	for i, o := range s {
		if !o.New || hasNested {
			continue
		}
		if o.G == "Pair" {
			for keep, m := range members["Pair"] {
				c := []Op{}
				for j, p := range cloneSeq(s) {
					if j == i {
						p.G = "Box"
						if len(o.Args) > keep {
							p.Args = []string{o.Args[keep]}
						}
					} else if !p.New && p.Att == "" && p.Inst == inst {
						if p.Member != m {
							continue
						}
						p.Member = "v"
					}
					c = append(c, p)
				}
				out = append(out, c)
			}
		}
		inst++
	}
	// every Pair instance -> Box at once, keeping the same member everywhere
	for keep, m := range members["Pair"] {
		if hasNested {
			break
		}
		isPair := map[int]bool{}
		n := 0
		for _, o := range s {
			if o.New {
				isPair[n] = o.G == "Pair"
				n++
			}
		}
		c := []Op{}
		any := false
		for _, p := range cloneSeq(s) {
			if p.New && p.G == "Pair" {
				p.G = "Box"
				if len(p.Args) > keep {
					p.Args = []string{p.Args[keep]}
				}
				any = true
			} else if !p.New && p.Att == "" && isPair[p.Inst] {
				if p.Member != m {
					continue
				}
				p.Member = "v"
			}
			c = append(c, p)
		}
		if any {
			out = append(out, c)
		}
	}
	// a less visible member -> a more visible one (the whole history uses one class variant)
	if v := visRank(visOf(s)); v > 0 && v < len(visOrder) {
		for _, simpler := range visOrder[:v] {
			c := cloneSeq(s)
			for i := range c {
				if c[i].New {
					c[i].Vis = simpler
				}
			}
			out = append(out, c)
		}
	}
	// shared `new` sites -> one site per op (only without attempts, which exist at sites only)
	if siteMode(s) {
		c := cloneSeq(s)
		for i := range c {
			c[i].Site = false
		}
		out = append(out, c)
	}
	for i, o := range s {
		if !o.New && o.Att == "" {
			// a simpler route for the same store (an agent is kept only by another agent route) …
			for _, r := range routeOrder[:min(routeRank(o.Route), len(routeOrder))] {
				c := cloneSeq(s)
				c[i].Route = r
				if !agentRoute(r) {
					c[i].Agent = 0
				}
				out = append(out, c)
			}
			// … a simpler store statement …
			for _, f := range formOrder[:min(formRank(o.Store), len(formOrder))] {
				c := cloneSeq(s)
				c[i].Store = f
				out = append(out, c)
			}
			// … or an earlier instance as the agent
			if agentRoute(o.Route) {
				for a := 0; a < o.Agent; a++ {
					c := cloneSeq(s)
					c[i].Agent = a
					out = append(out, c)
				}
			}
		}
		if o.New && o.Raw == "sub" {
			c := cloneSeq(s)
			c[i].Raw = "raw"
			out = append(out, c)
		}
	}
	for i, o := range s {
		if o.New || o.Att != "" {
			for ai, a := range o.Args {
				for _, k := range allKinds[:kindRank(a)] {
					if k == "W" {
						continue
					}
					c := cloneSeq(s)
					c[i].Args[ai] = k
					out = append(out, c)
				}
			}
		} else {
			for _, k := range allKinds[:kindRank(o.Val)] {
				c := cloneSeq(s)
				c[i].Val = k
				out = append(out, c)
			}
		}
	}
	// rename kinds (swap two kinds everywhere); W is never a type argument
	for x := 0; x < len(allKinds); x++ {
		for y := x + 1; y < len(allKinds); y++ {
			a, b := allKinds[x], allKinds[y]
			c := cloneSeq(s)
			okc := true
			sw := func(k string) string {
				if k == a {
					return b
				}
				if k == b {
					return a
				}
				return k
			}
			for i := range c {
				if c[i].New || c[i].Att != "" {
					for ai := range c[i].Args {
						c[i].Args[ai] = sw(c[i].Args[ai])
						if c[i].Args[ai] == "W" {
							okc = false
						}
					}
					for ai := range c[i].Args2 {
						c[i].Args2[ai] = sw(c[i].Args2[ai])
						if c[i].Args2[ai] == "W" {
							okc = false
						}
					}
				} else {
					c[i].Val = sw(c[i].Val)
				}
			}
			if okc {
				out = append(out, c)
			}
		}
	}
	// move a `new` one step earlier; order adjacent writes
	for i := 0; i+1 < len(s); i++ {
		if (!s[i].New && s[i+1].New) || (!s[i].New && !s[i+1].New) {
			c := cloneSeq(s)
			c[i], c[i+1] = c[i+1], c[i]
			out = append(out, c)
		}
	}
	return out
}

type reducer struct {
	memo map[string]string // seqString -> clause of the first deviation
	runs int64
}

func (r *reducer) clauseOf(s []Op) string {
	k := seqString(s)
	if c, ok := r.memo[k]; ok {
		return c
	}
	if len(r.memo) > 300000 {
		r.memo = map[string]string{}
	}
	r.runs++
	v := judge(s)
	c := v.Clause
	if c == "crash" {
		c += ":" + v.Sub
	}
	r.memo[k] = c
	return c
}

// reduce returns the canonical minimal witness of the same clause.
func (r *reducer) reduce(s []Op, clause string) []Op {
	cur := cloneSeq(s)
	for changed := true; changed; {
		changed = false
		mc := measure(cur)
		for _, cand := range candidates(cur) {
			if _, ok := cc.expect(cand); !ok || len(cand) == 0 {
				continue
			}
			if !less(measure(cand), mc) {
				continue
			}
			if r.clauseOf(cand) == clause {
				cur = cand
				changed = true
				break
			}
		}
	}
	return cur
}

// ---- worker ---------------------------------------------------------------------------------

type shardArg struct {
	Prefix []Op  `json:"prefix"`
	MaxLen int   `json:"max"`
	Alpha  alpha `json:"alpha"`
	Seed   int64 `json:"seed"`
	Slice  int   `json:"slice,omitempty"` // table shards: cases with index % Of == Slice
	Of     int   `json:"of,omitempty"`
}

type rec struct {
	Kind     string         `json:"kind"` // "count" | "fail" | "sample"
	N        int64          `json:"n,omitempty"`
	ByLen    map[int]int64  `json:"bylen,omitempty"`
	Outcomes map[string]int `json:"outcomes,omitempty"`
	Later    int64          `json:"later,omitempty"` // histories whose first deviation is before their last op (already reported at the shorter history)
	RedRuns  int64          `json:"redruns,omitempty"`
	Key      string         `json:"key,omitempty"`
	Clause   string         `json:"clause,omitempty"`
	Size     int            `json:"size,omitempty"`
	Case     any            `json:"case,omitempty"`
	Detail   string         `json:"detail,omitempty"`
}

func caseOf(s []Op, seed int64) map[string]any {
	return map[string]any{"ops": s, "text": seqString(s), "seed": seed, "script": cc.script(s)}
}

func detailOf(s []Op) string {
	v := judge(s)
	return fmt.Sprintf("history: %s\nfirst deviation at op %d (%s)\nexpected (per-instance model): %s\nobserved:                       %s",
		seqString(s), v.Step, s[min(v.Step, len(s)-1)].String(), strings.Join(v.Exp, " "), strings.Join(v.Got, " "))
}

func seqWorker(w *pool.W, arg json.RawMessage) {
	var sh shardArg
	json.Unmarshal(arg, &sh)
	cc = newConcr(sh.Seed)
	red := &reducer{memo: map[string]string{}}
	var n, later int64
	byLen := map[int]int64{}
	outcomes := map[string]int{}
	emitted := map[string]int{}
	sampled := false
	var visit func(seq []Op)
	visit = func(seq []Op) {
		if len(seq) > 0 && w.Item(seqString(seq)) {
			n++
			byLen[len(seq)]++
			v := judge(seq)
			// outcome class of the last op (vacuity: both accepted and rejected writes must occur)
			if len(v.Got) >= len(seq) {
				last := v.Got[len(seq)-1]
				if len(last) > 0 {
					outcomes[last[:1]]++
				}
			}
			if v.Clause != "" {
				if v.Step < len(seq)-1 {
					later++ // the shorter history (prefix) already reports this deviation
				} else {
					cl := v.Clause
					if cl == "crash" {
						cl += ":" + v.Sub
					}
					m := red.reduce(seq, cl)
					key := cl + ": " + seqString(m)
					outcomes["deviation:"+v.Clause]++
					if emitted[key] == 0 {
						w.Emit(rec{Kind: "fail", Key: key, Clause: v.Clause, Size: len(m), Case: caseOf(m, sh.Seed), Detail: detailOf(m)})
					}
					emitted[key]++
				}
			} else if !sampled && len(seq) == sh.MaxLen && !seq[len(seq)-1].New {
				sampled = true
				w.Emit(rec{Kind: "sample", Case: map[string]any{"history": seqString(seq), "expected=observed": strings.Join(v.Got, " ")}})
			}
		}
		if len(seq) >= sh.MaxLen {
			return
		}
		for _, o := range successors(seq, sh.Alpha, nil) {
			visit(append(seq[:len(seq):len(seq)], o))
		}
	}
	visit(sh.Prefix) // histories shorter than the shard prefix are run by the "short" shard
	for k, cnt := range emitted {
		if cnt > 1 {
			w.Emit(rec{Kind: "failcount", Key: k, N: int64(cnt - 1)})
		}
	}
	w.Emit(rec{Kind: "count", N: n, ByLen: byLen, Outcomes: outcomes, Later: later, RedRuns: red.runs})
}

// shortWorker runs every history of length < plen (the prefixes above the shard roots).
func shortWorker(w *pool.W, arg json.RawMessage) {
	var sh shardArg
	json.Unmarshal(arg, &sh)
	sh2 := sh
	sh2.Prefix = nil
	b, _ := json.Marshal(sh2)
	seqWorker(w, b)
}

// ---- single-instance table: wider value pool, no history -----------------------------------------

func tableCases() [][]Op {
	var out [][]Op
	types := []string{"int", "string", "array", "U"}
	for _, t := range types {
		for _, r := range []string{"prop", "meth"} {
			for _, v := range allKinds {
				out = append(out, []Op{{New: true, G: "Box", Args: []string{t}}, {Inst: 0, Member: "v", Route: r, Val: v}})
			}
		}
	}
	for _, t1 := range types {
		for _, t2 := range types {
			for _, m := range []string{"k", "v"} {
				for _, r := range []string{"prop", "meth"} {
					for _, v := range allKinds {
						out = append(out, []Op{{New: true, G: "Pair", Args: []string{t1, t2}}, {Inst: 0, Member: m, Route: r, Val: v}})
					}
				}
			}
		}
	}
	// every visibility variant × every route admissible for it, the instance being its own agent
	for _, vis := range visOrder {
		for _, r := range routeOrder {
			for _, f := range formOrder {
				if (r == "prop" || r == "meth") && vis == "" && f == "" || vis != "" && publicOnly(r) {
					continue // public plain prop / meth: the rows above
				}
				for _, v := range allKinds {
					for _, t := range types {
						out = append(out, []Op{{New: true, G: "Box", Args: []string{t}, Vis: vis}, {Inst: 0, Member: "v", Route: r, Store: f, Val: v}})
					}
					for _, t1 := range types {
						for _, t2 := range types {
							for _, m := range []string{"k", "v"} {
								out = append(out, []Op{{New: true, G: "Pair", Args: []string{t1, t2}, Vis: vis}, {Inst: 0, Member: m, Route: r, Store: f, Val: v}})
							}
						}
					}
				}
			}
		}
	}
	return out
}

func tableWorker(w *pool.W, arg json.RawMessage) {
	var sh shardArg
	json.Unmarshal(arg, &sh)
	cc = newConcr(sh.Seed)
	red := &reducer{memo: map[string]string{}}
	var n int64
	outcomes := map[string]int{}
	for i, seq := range tableCases() {
		if sh.Of > 1 && i%sh.Of != sh.Slice {
			continue
		}
		if !w.Item("table:" + seqString(seq)) {
			continue
		}
		n++
		v := judge(seq)
		if len(v.Got) == 2 && len(v.Got[1]) > 0 {
			outcomes["table:"+v.Got[1][:1]]++
		}
		if v.Clause != "" {
			cl := v.Clause
			if cl == "crash" {
				cl += ":" + v.Sub
			}
			m := red.reduce(seq, cl)
			key := cl + ": " + seqString(m)
			w.Emit(rec{Kind: "fail", Key: key, Clause: v.Clause, Size: len(m), Case: caseOf(m, sh.Seed), Detail: detailOf(m)})
		}
	}
	w.Emit(rec{Kind: "count", N: n, Outcomes: outcomes, ByLen: map[int]int64{2: 0}, RedRuns: red.runs})
}

// ---- parent -----------------------------------------------------------------------------------

// countSeqs counts histories of exactly length l (for the evidence; independent of the workers' tally).
func countSeqs(a alpha, maxLen int) map[int]int64 {
	res := map[int]int64{}
	nb, np := int64(0), int64(0) // `new` ops per generic
	for _, g := range a.Generics {
		if g == "Box" {
			nb = int64(len(a.Types))
		} else {
			np = int64(len(a.Types) * len(a.Types))
		}
	}
	tb, tp := nb, np // typed plain `new`s per generic
	if a.Raw {
		if nb > 0 {
			nb += 2
		}
		if np > 0 {
			np += 2
		}
	}
	var nbb, nbp, npp int64 // nested instantiations (3 forms) by the generics of the two instances
	if a.Nested {
		nbb, nbp, npp = 3*tb*tb, 2*2*tb*tp, 2*tp*tp // short form: Box in Box only
	}
	// writes on one target: simple routes once, agent routes once per admissible agent (every live instance,
	// or — pour/clos into a non-public member — every live instance of the target's generic class)
	var simple, agAll, agSame int64
	for _, r := range a.routes() {
		switch {
		case !agentRoute(r):
			simple++
		case sameClassAgent(r, a.Vis):
			agSame++
		default:
			agAll++
		}
	}
	nv := int64(len(a.Vals) * len(a.stores()))
	var noInst int64 // site histories: attempts that leave no instance (boom per typed new, under per Pair<A>, over per Box<A,B>)
	if a.Sites {
		noInst = tb + tp
		if tp > 0 {
			noInst += int64(len(a.Types))
		}
		if tb > 0 {
			noInst += int64(len(a.Types) * len(a.Types))
		}
	}
	// state: (boxes, pairs) live
	type st struct{ b, p int }
	cur := map[st]int64{{0, 0}: 1}
	for l := 1; l <= maxLen; l++ {
		nxt := map[st]int64{}
		for s, c := range cur {
			if nb > 0 {
				nxt[st{s.b + 1, s.p}] += c * nb
			}
			if np > 0 {
				nxt[st{s.b, s.p + 1}] += c * np
			}
			if nbb > 0 {
				nxt[st{s.b + 2, s.p}] += c * nbb
			}
			if nbp > 0 {
				nxt[st{s.b + 1, s.p + 1}] += c * nbp
			}
			if npp > 0 {
				nxt[st{s.b, s.p + 2}] += c * npp
			}
			b, p := int64(s.b), int64(s.p)
			wr := b*nv*(simple+agAll*(b+p)+agSame*b) + p*2*nv*(simple+agAll*(b+p)+agSame*p)
			if wr+noInst > 0 {
				nxt[s] += c * (wr + noInst)
			}
		}
		var tot int64
		for _, c := range nxt {
			tot += c
		}
		res[l] = tot
		cur = nxt
	}
	return res
}

const tableShards = 32

type plan struct {
	name   string
	a      alpha
	maxLen int
}

func main() {
	if pool.IsWorker() {
		pool.Serve(map[string]pool.Handler{"seq": seqWorker, "short": shortWorker, "table": tableWorker, "conc": concWorker, "builtin": builtinWorker})
	}
	c := ev.New("C19")
	defer runner.Cleanup()
	cc = newConcr(c.Seed)
	if c.Replay != "" {
		replay(c)
		return
	}
	c.SetBudget(5*time.Minute, 40*time.Minute)
	four := []string{"int", "string", "array", "U"}
	both := []string{"prop", "meth"}
	three := []string{"int", "string", "U"}
	two := []string{"int", "string"}
	inClass := []string{"meth", "stat", "pour", "relay", "clos"} // routes whose code belongs to the generic class itself
	full := alpha{Generics: []string{"Box", "Pair"}, Types: four, Vals: four, Routes: both}
	// quick: the full alphabet to length 3, and length 4 on three sub-alphabets (each complete)
	fullRaw := full
	fullRaw.Raw = true
	// quick: the full alphabet (incl. raw `new G()` and subclass `new AnyG()` objects) to length 3, and
	// length 4 on four sub-alphabets (each complete)
	bp := []string{"Box", "Pair"}
	bx := []string{"Box"}
	// Cheaper plans first: if the budget expires on a loaded machine, what is lost is the deepest part.
	plans := []plan{
		{"full+raw", fullRaw, 3},
		{"nested-box+pair-2kinds", alpha{Generics: bp, Types: two, Vals: two, Routes: both, Nested: true}, 2},
		// one `new G<…>` site executed several times (function called again), failed first attempts, wrong arity
		{"sites-full3", alpha{Generics: bp, Types: three, Vals: three, Routes: both, Sites: true}, 3},
		{"sites-box2", alpha{Generics: bx, Types: two, Vals: two, Routes: both, Sites: true}, 4},
		{"box-4kinds+raw", alpha{Generics: bx, Types: four, Vals: four, Routes: both, Raw: true}, 4},
		// who executes the store × visibility of the typed member (routeOrder / visOrder in model.go)
		{"agents-full3-priv+raw", alpha{Generics: bp, Types: three, Vals: three, Routes: inClass, Raw: true, Vis: "priv"}, 3},
		{"agents-full3-prot+raw", alpha{Generics: bp, Types: three, Vals: three, Routes: inClass, Raw: true, Vis: "prot"}, 3},
		{"agents-full3-pub+raw", alpha{Generics: bp, Types: three, Vals: three, Routes: routeOrder, Raw: true}, 3},
		// … × the syntax of the store statement (formOrder)
		{"forms-box3-pub", alpha{Generics: bx, Types: three, Vals: three, Routes: routeOrder, Stores: formOrder}, 3},
		{"forms-box3-prot", alpha{Generics: bx, Types: three, Vals: three, Routes: inClass, Stores: formOrder, Vis: "prot"}, 3},
		{"forms-box3-priv", alpha{Generics: bx, Types: three, Vals: three, Routes: inClass, Stores: formOrder, Vis: "priv"}, 3},
		{"pair-2kinds+raw", alpha{Generics: []string{"Pair"}, Types: two, Vals: two, Routes: both, Raw: true}, 4},
		{"agents-box2-pub", alpha{Generics: bx, Types: two, Vals: two, Routes: routeOrder}, 4},
		{"agents-box3-priv", alpha{Generics: bx, Types: three, Vals: three, Routes: inClass, Vis: "priv"}, 4},
		{"nested-box-3kinds", alpha{Generics: bx, Types: three, Vals: three, Routes: both, Nested: true}, 3},
		{"box+pair-2kinds+raw", alpha{Generics: bp, Types: two, Vals: two, Routes: both, Raw: true}, 4},
		// (pair-3kinds ≤4, 161 388 histories, moved to thorough (pair-3kinds+raw) to pay for sites-* and the built-in containers)
	}
	if !c.Quick() {
		// thorough: the full alphabet to length 4; longer histories on sub-alphabets; the foreign class W as a value
		plans = []plan{
			{"full+raw", fullRaw, 3},
			{"box-4kinds+raw", alpha{Generics: bx, Types: four, Vals: four, Routes: both, Raw: true}, 4},
			{"pair-3kinds+raw", alpha{Generics: []string{"Pair"}, Types: three, Vals: three, Routes: both, Raw: true}, 4},
			{"nested-box-4kinds", alpha{Generics: bx, Types: four, Vals: four, Routes: both, Nested: true}, 3},
			{"nested-box+pair-2kinds", alpha{Generics: bp, Types: two, Vals: two, Routes: both, Nested: true}, 3},
			{"agents-full-priv+raw", alpha{Generics: bp, Types: four, Vals: four, Routes: inClass, Raw: true, Vis: "priv"}, 3},
			{"agents-full-prot+raw", alpha{Generics: bp, Types: four, Vals: four, Routes: inClass, Raw: true, Vis: "prot"}, 3},
			{"agents-full-pub+raw", alpha{Generics: bp, Types: four, Vals: four, Routes: routeOrder, Raw: true}, 3},
			{"agents-box4-priv+raw", alpha{Generics: bx, Types: four, Vals: four, Routes: inClass, Raw: true, Vis: "priv"}, 4},
			{"agents-box3-prot+raw", alpha{Generics: bx, Types: three, Vals: three, Routes: inClass, Raw: true, Vis: "prot"}, 4},
			{"agents-box3-pub", alpha{Generics: bx, Types: three, Vals: three, Routes: routeOrder}, 4},
			{"agents-pair2-priv", alpha{Generics: []string{"Pair"}, Types: two, Vals: two, Routes: inClass, Vis: "priv"}, 4},
			{"agents-box3-priv-pour", alpha{Generics: bx, Types: three, Vals: three, Routes: []string{"meth", "pour"}, Vis: "priv"}, 5},
			{"forms-full3-priv+raw", alpha{Generics: bp, Types: three, Vals: three, Routes: inClass, Stores: formOrder, Raw: true, Vis: "priv"}, 3},
			{"forms-full2-prot", alpha{Generics: bp, Types: two, Vals: two, Routes: inClass, Stores: formOrder, Vis: "prot"}, 3},
			{"forms-full3-pub+raw", alpha{Generics: bp, Types: three, Vals: three, Routes: routeOrder, Stores: formOrder, Raw: true}, 3},
			{"forms-box2-pub", alpha{Generics: bx, Types: two, Vals: two, Routes: []string{"prop", "meth", "pour"}, Stores: formOrder}, 4},
			{"sites-full4+raw", alpha{Generics: bp, Types: four, Vals: four, Routes: both, Sites: true, Raw: true}, 3},
			{"sites-box3", alpha{Generics: bx, Types: three, Vals: three, Routes: both, Sites: true}, 4},
			{"sites-pair2", alpha{Generics: []string{"Pair"}, Types: two, Vals: two, Routes: both, Sites: true}, 4},
			{"box-4kinds+W", alpha{Generics: bx, Types: four, Vals: allKinds, Routes: both}, 5},
			{"box-2kinds+raw", alpha{Generics: bx, Types: two, Vals: two, Routes: both, Raw: true}, 5},
			{"pair-2kinds", alpha{Generics: []string{"Pair"}, Types: []string{"int", "U"}, Vals: []string{"int", "U"}, Routes: both}, 5},
			{"box-prop-3kinds", alpha{Generics: bx, Types: three, Vals: three, Routes: []string{"prop"}}, 6},
			{"full", full, 4},
		}
	}
	// development aid: C19_PLANS=<substring> runs only the plans whose name contains it (reported as not exhaustive)
	if f := strings.TrimPrefix(os.Getenv("C19_PLANS"), "="); f != "" {
		var sel []plan
		for _, p := range plans {
			if strings.Contains(p.name, f) {
				sel = append(sel, p)
			}
		}
		plans = sel
		c.NotExhaustive("C19_PLANS=" + f + ": only the matching plans were run")
	}
	expected := map[string]map[int]int64{}
	const plen = 2
	var total, later, redRuns, tableN, builtinN, concExecs, concScen int64
	got := map[string]map[int]int64{}
	outcomes := map[string]int{}
	run := func(shards []pool.Shard, plan string) {
		pool.Run(shards, pool.Options{}, func(si int, rb json.RawMessage) {
			var r rec
			json.Unmarshal(rb, &r)
			switch r.Kind {
			case "count":
				total += r.N
				later += r.Later
				redRuns += r.RedRuns
				if plan != "" {
					if got[plan] == nil {
						got[plan] = map[int]int64{}
					}
					for l, n := range r.ByLen {
						got[plan][l] += n
					}
				} else {
					tableN += r.N
				}
				for k, n := range r.Outcomes {
					outcomes[k] += n
				}
			case "bcount":
				builtinN += r.N
				redRuns += r.RedRuns
				for k, n := range r.Outcomes {
					outcomes[k] += n
				}
			case "fail":
				c.Fail(r.Key, r.Clause, r.Size, r.Case, r.Detail)
			case "concdone":
				concExecs += r.N
				concScen++
				if os.Getenv("C19_DEBUG") != "" {
					fmt.Fprintf(os.Stderr, "conc %s: execs=%d outcomes=%d %s\n", r.Key, r.N, r.Size, r.Detail)
				}
				c.Outcome(fmt.Sprintf("conc:%d-outcomes", r.Size))
				if strings.HasPrefix(r.Detail, "false") {
					c.NotExhaustive("concurrent scenario " + r.Key + " stopped: " + r.Detail)
				}
			case "failcount":
				for i := int64(0); i < r.N; i++ {
					c.Fail(r.Key, "", 1<<30, nil, "")
				}
			case "sample":
				c.Sample(r.Case)
			}
		}, func(d pool.Death) {
			c.Fail("worker-death:"+runner.FatalFrame(d.Stderr), "crash", 0, map[string]any{"item": d.Item, "reason": d.Reason}, d.Stderr)
		})
	}
	// development aid: C19_PLANS="=<substring>" also restricts the fixed parts (table, builtin, conc) to matching names
	part := func(name string) bool {
		f := os.Getenv("C19_PLANS")
		return !strings.HasPrefix(f, "=") || strings.Contains(name, f[1:])
	}
	var tshards []pool.Shard
	for i := 0; i < tableShards && part("table"); i++ {
		tshards = append(tshards, pool.Shard{Kind: "table", Arg: shardArg{Seed: c.Seed, Slice: i, Of: tableShards}})
	}
	run(tshards, "")
	if n := int64(len(tableCases())); tableN != n && part("table") {
		c.HarnessError("table: ran %d cases, the table has %d", tableN, n)
	}
	// built-in generic containers (std/loop List<T>, HashMap<K,V>): every method sequence up to bMax, then probes
	bMax := 3
	if part("builtin") {
		run(bShards(bMax, c.Seed), "")
	}
	if want := bCount(bMax); builtinN != want && part("builtin") {
		c.HarnessError("builtin: ran %d cases, the space has %d", builtinN, want)
	}
	c.Set("builtin_container_cases", map[string]any{"cases": builtinN, "max_ops": bMax, "list_ops": listOps, "hashmap_ops": mapOps})
	total += builtinN
	// concurrent clause: coroutines instantiating Box<T> with different arguments under the scheduler
	var cshards []pool.Shard
	for _, sc := range concScenarios(c.Quick()) {
		if !part("conc") {
			break
		}
		cshards = append(cshards, pool.Shard{Kind: "conc", Arg: sc})
	}
	run(cshards, "")
	c.Set("concurrent_scenarios", concScen)
	c.Set("concurrent_executions", concExecs)
	total += concExecs
	var donePlans []plan
	for _, p := range plans {
		// a plan (one complete history space) is only started while the budget lasts
		if c.Expired() {
			names := []string{}
			for _, d := range donePlans {
				names = append(names, fmt.Sprintf("%s<=%d", d.name, d.maxLen))
			}
			c.NotExhaustive("budget expired; completed plans: " + strings.Join(names, ", "))
			break
		}
		expected[p.name] = countSeqs(p.a, p.maxLen)
		shards := []pool.Shard{{Kind: "short", Arg: shardArg{MaxLen: plen - 1, Alpha: p.a, Seed: c.Seed}}}
		for _, o1 := range successors(nil, p.a, nil) {
			for _, o2 := range successors([]Op{o1}, p.a, nil) {
				shards = append(shards, pool.Shard{Kind: "seq", Arg: shardArg{Prefix: []Op{o1, o2}, MaxLen: p.maxLen, Alpha: p.a, Seed: c.Seed}})
			}
		}
		run(shards, p.name)
		donePlans = append(donePlans, p)
	}
	plans = donePlans
	// the workers' tally must equal the closed-form count of the history space (nothing skipped)
	for _, p := range plans {
		for l := 1; l <= p.maxLen; l++ {
			if got[p.name][l] != expected[p.name][l] {
				c.HarnessError("plan %s: ran %d histories of length %d, the space has %d", p.name, got[p.name][l], l, expected[p.name][l])
			}
		}
		c.Set("histories_"+p.name, map[string]any{"alphabet": p.a, "max_len": p.maxLen, "by_length": expected[p.name]})
	}
	for k, n := range outcomes {
		for i := 0; i < n && i < 1; i++ {
			c.Outcome(k)
		}
		c.Add("outcome_"+k, int64(n))
	}
	c.Set("single_instance_table_cases", tableN)
	c.Set("histories_with_earlier_deviation_not_re-reduced", later)
	c.Set("reduction_runs", redRuns)
	c.Assume("sequential histories only: the concurrent clause of the statement is not decided by this check (extension point in main.go)")
	c.Assume("members typed with the type parameter are: a public / protected / private property, and a method whose body stores its argument into that property; whether a method *parameter* declared T is checked before the body runs is not asserted (both orders reject the call)")
	c.Assume("a store is only enumerated from code that is allowed to touch the member (non-public members: methods, static methods and closures of the generic class itself, of any instantiation); who may access a member is not C19's subject. The type arguments of the instance whose method executes the store never enter the expectation")
	c.Assume("value kinds int/string/array/instances of two user classes; PHP-style coercions (numeric strings, bool, float, null) are outside the enumerated value pool; docs/array_methods.md documents strict rejection for generic containers")
	if len(plans) > 0 && (outcomes["A"] == 0 || outcomes["R"] == 0 || outcomes["N"] == 0) {
		c.HarnessError("vacuous: accepted=%d rejected=%d new=%d", outcomes["A"], outcomes["R"], outcomes["N"])
	}
	names := []string{}
	for _, p := range plans {
		names = append(names, fmt.Sprintf("%s<=%d", p.name, p.maxLen))
	}
	sort.Strings(names)
	c.Finish(total, total+redRuns, total, "every op history over {new Box<T>, new Pair<K,V>, raw/subclass/nested instantiations, typed store × executing code (top level, own method, function, unrelated class, static method, method/closure of another live instance) × member visibility × store syntax} on live instances, plans "+strings.Join(names, ", ")+"; each history one script on a fresh parser+VM; every step compared with the per-instance model; + single-instance table (visibility × route × store syntax) over 5 value kinds")
}

func replay(c *ev.Check) {
	var cs struct {
		Ops     []Op   `json:"ops"`
		Seed    int64  `json:"seed"`
		Builtin *bcase `json:"builtin"`
	}
	key, err := ev.LoadReplay(c.Replay, &cs)
	if err != nil {
		fmt.Println("replay:", err)
		c.HarnessError("replay: %v", err)
		c.Finish(1, 1, 1, "replay")
	}
	cc = newConcr(cs.Seed)
	if cs.Builtin != nil {
		src, _ := cc.bScript(*cs.Builtin)
		fmt.Println(src)
		for i := 0; i < 16; i++ { // a deviation may depend on Go map iteration order
			cl, _, exp, got := bJudge(*cs.Builtin)
			fmt.Printf("run %d: expected %s observed %s\n", i, strings.Join(exp, " | "), strings.Join(got, " | "))
			if cl != "" {
				c.Fail(key, strings.SplitN(cl, ":", 2)[0], 0, cs, cs.Builtin.String())
				break
			}
		}
		c.Finish(1, 1, 1, "replay")
		return
	}
	fmt.Println(cc.script(cs.Ops))
	v := judge(cs.Ops)
	fmt.Printf("history:  %s\nexpected: %s\nobserved: %s\n", seqString(cs.Ops), strings.Join(v.Exp, " "), strings.Join(v.Got, " "))
	if v.Clause != "" {
		c.Fail(key, v.Clause, 0, cs, detailOf(cs.Ops))
	}
	c.Finish(1, 1, 1, "replay")
}

// ---- EXTENSION POINT: concurrent clause ---------------------------------------------------------
//
// The statement also covers instantiations made *concurrently*. That clause is deliberately not
// implemented here. What a later author needs from this file:
//   - cc.script(seq) / cc.expect(seq): script text and per-instance expected lines of a history;
//     every statement-level merge of two histories is itself one of the sequential histories
//     enumerated above, so only intra-statement interleavings are new;
//   - judge(seq): runs one history and returns the first deviating step;
//   - the per-instance oracle (concr.expect) is order-free by construction and can be applied
//     unchanged to each thread's own instances.
// Add a pool handler (e.g. "conc") that drives two script threads under the E2 scheduler with the
// govis overlay on package node (Points at ClassGeneric.GetProperty / Properties[...] accesses),
// register it in main()'s pool.Serve map, append its shards next to the "table" shard and report
// its failures with c.Fail under clause "concurrent". Nothing else has to change.
