package main

// Built-in generic containers of std/loop as subjects: List<T> and HashMap<K,V> (the only classes std/loop
// registers; both implement data.ClassGeneric). A case is
//
//	$o = new C<sibling args>();  $s = new C<args>();          (the sibling is another instantiation of the class)
//	up to bMaxOps method calls on $s (every documented method, with concrete arguments; may throw — not judged)
//	probes on $s: List: add(x) then set(0, x) for every value kind;  HashMap: put(k, v) for every pair of kinds
//	probes on $o: the same adds / puts
//
// Oracle, as for user classes: a probe is accepted iff the value kinds equal the instance's OWN type arguments,
// whatever was called before and whatever the sibling is. Every method sequence of length 0..bMaxOps is enumerated
// for every type argument (tuple); the sibling is the next kind cyclically (every other kind when the prefix is
// shorter than the maximum).

import (
	"encoding/json"
	"fmt"
	"strings"

	"verif/engine/pool"
	"verif/engine/runner"
)

type bcase struct {
	Class string   `json:"class"` // "List" | "HashMap"
	Args  []string `json:"args"`
	Sib   []string `json:"sib,omitempty"` // type arguments of the sibling instance (none: no sibling)
	Ops   []string `json:"ops,omitempty"`
}

func (b bcase) String() string {
	s := "new " + b.Class + "<" + strings.Join(b.Args, ",") + ">"
	if len(b.Sib) > 0 {
		s = "new " + b.Class + "<" + strings.Join(b.Sib, ",") + ">; " + s
	}
	for _, o := range b.Ops {
		s += "; " + o
	}
	return s
}

// method alphabets; "ok" = a value of the instance's own kind, "bad" = a value of another kind
var listOps = []string{"add(ok)", "add(bad)", "get(0)", "set(0,ok)", "set(0,bad)", "size()", "remove(ok)", "removeAt(0)", "clear()",
	"contains(ok)", "indexOf(ok)", "isEmpty()", "toArray()", "current()", "key()", "next()", "rewind()", "valid()"}
var mapOps = []string{"put(ok,ok)", "put(bad,ok)", "put(ok,bad)", "get(ok)", "remove(ok)", "containsKey(ok)", "containsValue(ok)", "size()",
	"isEmpty()", "clear()", "keys()", "values()", "current()", "key()", "next()", "rewind()", "valid()"}

var bListKinds = []string{"int", "string", "array", "U"}
var bKeyKinds = []string{"int", "string"}

func bOps(class string) []string {
	if class == "HashMap" {
		return mapOps
	}
	return listOps
}

func bTuples(class string) [][]string {
	var out [][]string
	if class == "List" {
		for _, t := range bListKinds {
			out = append(out, []string{t})
		}
		return out
	}
	for _, k := range bKeyKinds {
		for _, v := range bListKinds {
			out = append(out, []string{k, v})
		}
	}
	return out
}

func otherKind(k string) string { // a kind different from k, for "bad" arguments
	if k == "int" {
		return "string"
	}
	return "int"
}

// bSiblings: the sibling instantiations paired with args for a prefix of n ops.
func bSiblings(class string, args []string, n, maxOps int) [][]string {
	ts := bTuples(class)
	idx := 0
	for i, t := range ts {
		if strings.Join(t, ",") == strings.Join(args, ",") {
			idx = i
		}
	}
	if n == maxOps {
		return [][]string{ts[(idx+1)%len(ts)]}
	}
	var out [][]string
	for i, t := range ts {
		if i != idx {
			out = append(out, t)
		}
	}
	return out
}

func (c concr) bCall(v string, op string, args []string) string {
	item, key := args[0], args[0]
	if len(args) == 2 {
		item = args[1]
	}
	r := op
	lit := func(k string) string { s, _ := c.literal(k); return s }
	name := op[:strings.Index(op, "(")]
	if len(args) == 2 {
		switch name {
		case "put":
			parts := strings.Split(op[len("put("):len(op)-1], ",")
			kk, vk := key, item
			if parts[0] == "bad" {
				kk = otherKind(key)
			}
			if parts[1] == "bad" {
				vk = otherKind(item)
			}
			r = "put(" + lit(kk) + ", " + lit(vk) + ")"
		case "get", "remove", "containsKey":
			r = name + "(" + lit(key) + ")"
		case "containsValue":
			r = name + "(" + lit(item) + ")"
		}
	} else {
		r = strings.ReplaceAll(r, "bad", lit(otherKind(item)))
		r = strings.ReplaceAll(r, "ok", lit(item))
	}
	return fmt.Sprintf("try { %s->%s; } catch (Throwable $e) { }\n", v, r)
}

// probes returns the script lines and the expected marker string for one instance.
func (c concr) bProbes(v, class string, args []string, withSet bool) (string, string) {
	var sb, exp strings.Builder
	lit := func(k string) string { s, _ := c.literal(k); return s }
	mark := func(ok bool) {
		if ok {
			exp.WriteByte('A')
		} else {
			exp.WriteByte('R')
		}
	}
	if class == "List" {
		for _, k := range allKinds {
			fmt.Fprintf(&sb, "try { %s->add(%s); echo \"A\"; } catch (Throwable $e) { echo \"R\"; }\n", v, lit(k))
			mark(k == args[0])
		}
		if withSet {
			// the accepted add above guarantees index 0 exists
			for _, k := range allKinds {
				fmt.Fprintf(&sb, "try { %s->set(0, %s); echo \"A\"; } catch (Throwable $e) { echo \"R\"; }\n", v, lit(k))
				mark(k == args[0])
			}
		}
	} else {
		for _, kk := range bListKinds {
			for _, vk := range allKinds {
				fmt.Fprintf(&sb, "try { %s->put(%s, %s); echo \"A\"; } catch (Throwable $e) { echo \"R\"; }\n", v, lit(kk), lit(vk))
				mark(kk == args[0] && vk == args[1])
			}
		}
	}
	sb.WriteString("echo \"\\n\";\n")
	return sb.String(), exp.String()
}

func (c concr) bScript(b bcase) (src string, exp []string) {
	var sb strings.Builder
	fmt.Fprintf(&sb, "class %s { public $n = 1; }\nclass %s { public $n = 2; }\n", c.u, c.w)
	tn := func(a []string) string {
		x := make([]string, len(a))
		for i, k := range a {
			x[i] = c.typeName(k)
		}
		return strings.Join(x, ", ")
	}
	if len(b.Sib) > 0 {
		fmt.Fprintf(&sb, "$o = new %s<%s>();\n", b.Class, tn(b.Sib))
	}
	fmt.Fprintf(&sb, "$s = new %s<%s>();\n", b.Class, tn(b.Args))
	for _, op := range b.Ops {
		sb.WriteString(c.bCall("$s", op, b.Args))
	}
	p, e := c.bProbes("$s", b.Class, b.Args, true)
	sb.WriteString(p)
	exp = append(exp, e)
	if len(b.Sib) > 0 {
		p, e := c.bProbes("$o", b.Class, b.Sib, false)
		sb.WriteString(p)
		exp = append(exp, e)
	}
	return sb.String(), exp
}

// bJudge: "" or the clause; which = 0 subject / 1 sibling.
func bJudge(b bcase) (clause string, which int, exp, got []string) {
	src, exp := cc.bScript(b)
	res := runner.Run(src, runner.Opts{})
	got = strings.Split(strings.TrimRight(res.Out, "\n"), "\n")
	for i := range exp {
		if i >= len(got) || len(got[i]) != len(exp[i]) || res.Kind != "ok" {
			sub := res.Kind
			if res.PanicKey != "" {
				sub = res.PanicKey
			} else if res.Class != "" {
				sub += ":" + res.Class
			}
			return "crash:" + sub, i, exp, got
		}
		if got[i] != exp[i] {
			return "acceptance", i, exp, got
		}
	}
	return "", 0, exp, got
}

// bDeviates repeats a candidate: a deviation that depends on Go map iteration order shows only in some runs
// (observed ≈ 1 in 8 for a 2-entry map; 64 repeats miss it with probability 2·10⁻⁴). Results are memoised.
var bMemo = map[string]bool{} // per worker process; a shard has one class and one type-argument tuple

func bDeviates(b bcase, clause string, runs *int64) bool {
	mk := clause + "|" + b.String()
	if r, ok := bMemo[mk]; ok {
		return r
	}
	r := false
	for i := 0; i < 64 && !r; i++ {
		*runs++
		if cl, _, _, _ := bJudge(b); cl == clause {
			r = true
		}
	}
	if len(bMemo) > 200000 {
		bMemo = map[string]bool{}
	}
	bMemo[mk] = r
	return r
}

func bReduce(b bcase, clause string, runs *int64) bcase {
	cur := b
	for changed := true; changed; {
		changed = false
		var cands []bcase
		if len(cur.Ops) > 0 || len(cur.Sib) > 0 {
			cands = append(cands, bcase{Class: cur.Class, Args: cur.Args}) // the bare instantiation first
		}
		if len(cur.Sib) > 0 {
			cands = append(cands, bcase{Class: cur.Class, Args: cur.Sib}) // … or the sibling alone, as the subject
		}
		for i := range cur.Ops {
			c := cur
			c.Ops = append(append([]string(nil), cur.Ops[:i]...), cur.Ops[i+1:]...)
			cands = append(cands, c)
		}
		if len(cur.Sib) > 0 {
			c := cur
			c.Sib = nil
			cands = append(cands, c)
		}
		for _, t := range bTuples(cur.Class) { // simpler type arguments (bTuples is ordered simplest first)
			if strings.Join(t, ",") == strings.Join(cur.Args, ",") {
				break
			}
			c := cur
			c.Args = t
			cands = append(cands, c)
		}
		if len(cur.Sib) > 0 {
			for _, t := range bTuples(cur.Class) {
				if strings.Join(t, ",") == strings.Join(cur.Sib, ",") {
					break
				}
				c := cur
				c.Sib = t
				cands = append(cands, c)
			}
		}
		for _, c := range cands {
			if bDeviates(c, clause, runs) {
				cur, changed = c, true
				break
			}
		}
	}
	return cur
}

// bPrefixes calls f for every op sequence of length 0..maxOps whose first op is first ("" = only the empty sequence).
func bPrefixes(class, first string, maxOps int, f func([]string)) {
	if first == "" {
		f(nil)
		return
	}
	ops := bOps(class)
	var rec func(seq []string)
	rec = func(seq []string) {
		f(seq)
		if len(seq) >= maxOps {
			return
		}
		for _, o := range ops {
			rec(append(seq[:len(seq):len(seq)], o))
		}
	}
	rec([]string{first})
}

type bShard struct {
	Class  string   `json:"class"`
	Args   []string `json:"args"`
	First  string   `json:"first"`
	MaxOps int      `json:"max"`
	Seed   int64    `json:"seed"`
}

// bCount: closed-form number of cases (independent of the workers' tally).
func bCount(maxOps int) int64 {
	var tot int64
	for _, class := range []string{"List", "HashMap"} {
		nt, no := int64(len(bTuples(class))), int64(len(bOps(class)))
		pow := int64(1)
		for l := 0; l <= maxOps; l++ {
			sib := nt - 1
			if l == maxOps {
				sib = 1
			}
			tot += nt * pow * sib
			pow *= no
		}
	}
	return tot
}

func bShards(maxOps int, seed int64) []pool.Shard {
	var out []pool.Shard
	for _, class := range []string{"List", "HashMap"} {
		for _, t := range bTuples(class) {
			out = append(out, pool.Shard{Kind: "builtin", Arg: bShard{Class: class, Args: t, First: "", MaxOps: maxOps, Seed: seed}})
			for _, o := range bOps(class) {
				out = append(out, pool.Shard{Kind: "builtin", Arg: bShard{Class: class, Args: t, First: o, MaxOps: maxOps, Seed: seed}})
			}
		}
	}
	return out
}

func builtinWorker(w *pool.W, arg json.RawMessage) {
	var sh bShard
	json.Unmarshal(arg, &sh)
	cc = newConcr(sh.Seed)
	var n, runs int64
	outcomes := map[string]int{}
	emitted := map[string]int{}
	bPrefixes(sh.Class, sh.First, sh.MaxOps, func(ops []string) {
		for _, sib := range bSiblings(sh.Class, sh.Args, len(ops), sh.MaxOps) {
			b := bcase{Class: sh.Class, Args: sh.Args, Sib: sib, Ops: append([]string(nil), ops...)}
			if !w.Item("builtin:" + b.String()) {
				continue
			}
			n++
			cl, which, exp, got := bJudge(b)
			if cl == "" {
				outcomes["builtin:ok"]++
				continue
			}
			outcomes["builtin:deviation"]++
			m := bReduce(b, cl, &runs)
			key := "builtin-" + cl + ": " + m.String()
			if emitted[key] == 0 {
				src, _ := cc.bScript(m)
				w.Emit(rec{Kind: "fail", Key: key, Clause: strings.SplitN(cl, ":", 2)[0], Size: len(m.Ops) + 1, Case: map[string]any{"builtin": m, "text": m.String(), "seed": sh.Seed, "script": src},
					Detail: fmt.Sprintf("case: %s\nfirst seen in: %s (instance %d: 0 = subject, 1 = sibling)\nexpected markers (adds, then set(0,·) / puts; kinds %v): %s\nobserved:         %s", m.String(), b.String(), which, allKinds, strings.Join(exp, " | "), strings.Join(got, " | "))})
			}
			emitted[key]++
		}
	})
	for k, cnt := range emitted {
		if cnt > 1 {
			w.Emit(rec{Kind: "failcount", Key: k, N: int64(cnt - 1)})
		}
	}
	w.Emit(rec{Kind: "bcount", N: n, Outcomes: outcomes, RedRuns: runs})
}
