package main

// Concurrent clause of C19: instantiations of one generic class with different type arguments made
// by concurrently running coroutines (spawn) must each enforce their own arguments. The coroutines
// are threads of the controlled scheduler (spawn's `go func(){…}()` is rewritten to vshim.Go by
// govis); scheduling points are a gate() between script statements plus every instrumented access
// to shared interpreter state that two coroutines touch (learned, e.g. the generic class's
// GenericMap / property tables, VM registries). Every interleaving inside the preemption bound is
// explored; the oracle is per instance and order-free.

import (
	"encoding/json"
	"fmt"
	"sort"
	"strings"
	"time"

	"github.com/php-any/origami/data"
	"github.com/php-any/origami/parser"
	ort "github.com/php-any/origami/runtime"
	"github.com/php-any/origami/std"
	"github.com/php-any/origami/std/php"
	"github.com/php-any/origami/utils/vshim"

	"verif/engine/pool"
	"verif/engine/sched"
)

type concScenario struct {
	Types   []string `json:"types"` // type argument of each coroutine's Box
	Bound   int      `json:"bound"`
	Shared  bool     `json:"shared,omitempty"` // the coroutines are spawned from ONE closure in a loop: they share the `new Box<T>` site (all Types equal)
	Choices []int    `json:"choices,omitempty"`
	Sites   []string `json:"sites,omitempty"`
}

func (s concScenario) String() string {
	if s.Shared {
		return fmt.Sprintf("conc %d coroutines at one site new Box<%s> pb=%d", len(s.Types), s.Types[0], s.Bound)
	}
	return fmt.Sprintf("conc Box<%s> pb=%d", strings.Join(s.Types, ">||Box<"), s.Bound)
}

var concLits = map[string]string{"int": "7", "string": `"s"`, "array": "[1]"}
var concKinds = []string{"int", "string", "array"}

func concScript(sc concScenario) string {
	var sb strings.Builder
	sb.WriteString("class Box<T> { public T $v; function put(T $x) { $this->v = $x; return $this; } }\n")
	if sc.Shared {
		// one closure, spawned len(Types) times: every coroutine executes the same `new Box<T>()` node
		// cid(): a fresh coroutine number at the coroutine's first step (a captured loop variable is not per coroutine)
		fmt.Fprintf(&sb, "for ($n = 0; $n < %d; $n = $n + 1) {\nspawn(function() {\n  $i = cid(); gate(); $b = new Box<%s>(); gate();\n", len(sc.Types), sc.Types[0])
		for _, k := range concKinds {
			fmt.Fprintf(&sb, "  try { $b->v = %s; crec($i, \"%s\", 1); } catch (Throwable $e) { crec($i, \"%s\", 0); } gate();\n", concLits[k], k, k)
		}
		for _, k := range concKinds {
			fmt.Fprintf(&sb, "  try { $b->put(%s); crec($i, \"put-%s\", 1); } catch (Throwable $e) { crec($i, \"put-%s\", 0); } gate();\n", concLits[k], k, k)
		}
		sb.WriteString("});\n}\n")
		return sb.String()
	}
	for i, t := range sc.Types {
		fmt.Fprintf(&sb, "spawn(function() {\n  gate(); $b = new Box<%s>(); gate();\n", t)
		for _, k := range concKinds {
			fmt.Fprintf(&sb, "  try { $b->v = %s; crec(%d, \"%s\", 1); } catch (Throwable $e) { crec(%d, \"%s\", 0); } gate();\n", concLits[k], i, k, i, k)
		}
		for _, k := range concKinds {
			fmt.Fprintf(&sb, "  try { $b->put(%s); crec(%d, \"put-%s\", 1); } catch (Throwable $e) { crec(%d, \"put-%s\", 0); } gate();\n", concLits[k], i, k, i, k)
		}
		sb.WriteString("});\n")
	}
	return sb.String()
}

type concState struct {
	got      map[string]int // "thread:kind" -> accepted(1)/rejected(0)
	uncaught []string
	err      string
}

func concBuild(sc concScenario) (func() []sched.Body, func() *concState) {
	var st *concState
	src := concScript(sc)
	setup := func() []sched.Body {
		st = &concState{got: map[string]int{}}
		p := parser.NewParser()
		vm := ort.NewVM(p)
		std.Load(vm)
		php.Load(vm)
		rv := vm.(*ort.VM)
		rv.RegisterFunction("gate", func() int { vshim.Yield("gate"); return 0 })
		ncid := 0
		rv.RegisterFunction("cid", func() int { ncid++; return ncid - 1 })
		rv.RegisterFunction("crec", func(t int, k string, acc int) int { st.got[fmt.Sprintf("%d:%s", t, k)] = acc; return 0 })
		vm.SetThrowControl(func(acl data.Control) { st.uncaught = append(st.uncaught, acl.AsString()) })
		prog, acl := p.ParseString(src, "c19.zy")
		if acl != nil {
			st.err = "parse: " + acl.AsString()
			return []sched.Body{func(t *sched.Thread) {}}
		}
		ctx := vm.CreateContext(p.GetVariables())
		return []sched.Body{func(t *sched.Thread) {
			if _, acl := prog.GetValue(ctx); acl != nil {
				st.uncaught = append(st.uncaught, acl.AsString())
			}
		}}
	}
	return setup, func() *concState { return st }
}

func concWorker(w *pool.W, arg json.RawMessage) {
	var sc concScenario
	json.Unmarshal(arg, &sc)
	if !w.Item(sc.String()) {
		return
	}
	setup, get := concBuild(sc)
	seen := map[string]bool{}
	outcomes := map[string]bool{}
	cfg := &sched.Config{Name: sc.String(), Bound: sc.Bound, Setup: setup, MaxSteps: 20000, Deadline: time.Now().Add(4 * time.Minute)}
	emit := func(x *sched.Exec, key, detail string) {
		if seen[key] {
			return
		}
		seen[key] = true
		cs := sc
		cs.Choices = x.Choices()
		cs.Sites = sched.RelevantSites()
		w.Emit(rec{Kind: "fail", Key: key, Clause: "concurrent", Size: len(sc.Types)*1000 + len(x.Events), Case: map[string]any{"conc": cs, "script": concScript(sc)},
			Detail: detail + "\nscenario: " + sc.String() + "\nschedule: " + strings.Join(x.Schedule(), " ")})
	}
	cfg.Check = func(x *sched.Exec) {
		st := get()
		var ks []string
		for k, v := range st.got {
			ks = append(ks, fmt.Sprintf("%s=%d", k, v))
		}
		sort.Strings(ks)
		outcomes[strings.Join(ks, ",")] = true
		if st.err != "" {
			emit(x, "conc-harness:"+st.err, st.err)
			return
		}
		if x.Stuck != "" {
			emit(x, "conc-stuck", x.Stuck)
			return
		}
		for _, t := range x.Threads {
			if t.Panic != "" {
				emit(x, "conc-crash:"+t.PanicKey, "coroutine panicked: "+t.Panic)
			}
		}
		if x.Deadlock {
			emit(x, "conc-deadlock", "coroutines left parked")
		}
		for _, u := range st.uncaught {
			emit(x, "conc-uncaught", "uncaught in a coroutine: "+u)
		}
		for i, t := range sc.Types {
			for _, k := range concKinds {
				for _, via := range []string{"", "put-"} {
					want := 0
					if k == t {
						want = 1
					}
					got, ok := st.got[fmt.Sprintf("%d:%s%s", i, via, k)]
					if !ok {
						continue // the coroutine did not get that far (crash/deadlock reported above)
					}
					if got != want {
						w := "rejected"
						if got == 1 {
							w = "accepted"
						}
						with := "with concurrent Box<" + strings.Join(others(sc.Types, i), ",") + ">"
						if sc.Shared {
							with = "created at a `new` site shared by " + fmt.Sprint(len(sc.Types)) + " coroutines"
						}
						emit(x, fmt.Sprintf("conc-acceptance: Box<%s> %s %s%s %s", t, w, via, k, with),
							fmt.Sprintf("coroutine %d holds Box<%s>; a %s value through %s was %s", i, t, k, map[string]string{"": "direct store", "put-": "setter"}[via], w))
					}
				}
			}
		}
	}
	st := sched.Explore(cfg)
	w.Emit(rec{Kind: "concdone", N: st.Execs, Key: sc.String(), Size: len(outcomes), Detail: fmt.Sprint(st.Complete, " ", st.StopReason, " sites=", st.Relevant)})
}

func others(ts []string, i int) []string {
	var o []string
	for j, t := range ts {
		if j != i {
			o = append(o, t)
		}
	}
	return o
}

func concScenarios(quick bool) []concScenario {
	var out []concScenario
	for _, a := range concKinds {
		for _, b := range concKinds {
			out = append(out, concScenario{Types: []string{a, b}, Bound: 2})
		}
	}
	for _, a := range concKinds {
		out = append(out, concScenario{Types: []string{a, a}, Bound: 2, Shared: true})
	}
	if !quick {
		for _, a := range concKinds {
			out = append(out, concScenario{Types: []string{a, a, a}, Bound: 2, Shared: true})
		}
		for _, a := range concKinds {
			for _, b := range concKinds {
				out = append(out, concScenario{Types: []string{a, b}, Bound: 3})
				for _, c := range concKinds {
					out = append(out, concScenario{Types: []string{a, b, c}, Bound: 1})
				}
			}
		}
	}
	return out
}
