#!/bin/bash
# Offline setup after a fresh restore: build the instrumenter, generate the overlay for the
# current /repo tree and warm the build cache by compiling every check's harness.
set -u
V=/verif
export GOPROXY=off GOFLAGS=-mod=mod GOCACHE=$V/.gocache
unset GOTOOLCHAIN GOSUMDB 2>/dev/null || true
mkdir -p $V/.bin $V/.ovl $V/.tmp $V/evidence $V/replays
(cd $V/govis && go build -o $V/.bin/govis .) || exit 1
OVL=$($V/.bin/govis -repo /repo -cache $V/.ovl -shim $V/shim/vshim.go \
  -fullfields github.com/php-any/origami/std/channel \
  -rtfields "${VERIF_RTFIELDS-}" \
  ./data/... ./lexer/... ./node/... ./parser/... ./runtime/... ./std/... ./token/... ./utils/... | tail -1)
[ -f "$OVL/overlay.json" ] || { echo "setup: instrumentation failed" >&2; exit 1; }
rc=0
for id in $(jq -r '.checks[].property_id' $V/MANIFEST.json | tr 'A-Z' 'a-z'); do
  (cd $V && go build -overlay $OVL/overlay.json -o $V/.bin/$id ./checks/$id) || rc=1
done
# the plain CLI (used by the process-level clauses)
(cd /repo && go build -o $V/.bin/origami-cli . ) || rc=1
exit $rc
