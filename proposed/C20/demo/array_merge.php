<?php
// array_merge on string-keyed arrays: keys must come out in insertion order
// (all keys of $a, then the new keys of $b), identically on every run.
$a = ['zeta' => 1, 'alpha' => 2, 'mid' => 3, 'beta' => 4, 'omega' => 5, 'k6' => 6, 'k7' => 7, 'k8' => 8];
$b = ['alpha' => 20, 'new1' => 9, 'new2' => 10, 'new3' => 11];
$m = array_merge($a, $b);
foreach ($m as $k => $v) {
    echo $k, "=", $v, " ";
}
echo "\n";
