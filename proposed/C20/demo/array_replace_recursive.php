<?php
// array_replace_recursive: base keys keep their position, new keys are appended in order.
$base = ['zeta' => ['q' => 1, 'p' => 2, 'o' => 3, 'n' => 4, 'm' => 5], 'alpha' => 2, 'mid' => 3, 'beta' => 4, 'omega' => 5, 'k6' => 6];
$repl = ['mid' => 30, 'zeta' => ['p' => 20, 'a' => 9, 'b' => 10], 'new1' => 7, 'new2' => 8];
$r = array_replace_recursive($base, $repl);
foreach ($r as $k => $v) {
    echo $k, " ";
}
echo "| ";
foreach ($r['zeta'] as $k => $v) {
    echo $k, "=", $v, " ";
}
echo "\n";
