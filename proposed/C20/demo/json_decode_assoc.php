<?php
// json_decode(..., true): keys must keep document order, at every nesting level.
$js = '{"zeta":1,"alpha":2,"mid":{"y":1,"x":2,"w":3,"v":4,"u":5},"beta":4,"omega":5,"k6":6,"k7":7,"k8":8}';
$a = json_decode($js, true);
foreach ($a as $k => $v) {
    echo $k, " ";
}
echo "| ";
foreach ($a['mid'] as $k => $v) {
    echo $k, " ";
}
echo "\n";
// object result (assoc = false) goes through the JSON serializer
$o = json_decode($js);
foreach ($o as $k => $v) {
    echo $k, " ";
}
echo "\n";
